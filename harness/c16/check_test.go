package c16

// C16 — Merkle proofs: complete for true statements, unforgeable for false ones, never crash.
//
// Monitor: the REAL proof generator (store.Store.NewReadOnly(v).GetProof / store.SMT.GetMerkleProof) and
// the REAL verifier (Store.VerifyProof / SMT.VerifyProof) are run over generated states; every verdict of
// the verifier is compared with the ground truth of the key/value set:
//   (a) completeness: the honest proof for (k, set[k] | absent) must verify against the root the commit returned;
//   (b) soundness:    VerifyProof(...)==true is allowed only if the claim (key, value, membership) is true in
//                     the set — for honest proofs about other keys, proofs of other versions and ~30 families
//                     of malformed proofs;
//   (c) robustness:   no call may panic (recover) or fail to return (watchdog -> inconclusive).
// Signatures start with a kind per clause / per type of wrongly accepted claim, followed by the proof
// shape and the structural relation of the claimed key to the presented proof, so that a different hole
// has a different signature.

import (
	"bytes"
	"context"
	"crypto/sha256"
	"encoding/binary"
	"encoding/hex"
	"encoding/json"
	"fmt"
	"math/bits"
	"math/rand"
	"os"
	"os/exec"
	"path/filepath"
	"regexp"
	"runtime"
	"sort"
	"strings"
	"sync/atomic"
	"testing"
	"time"

	"github.com/canopy-network/canopy/lib"
	"github.com/canopy-network/canopy/store"
	"verif/core"
	"verif/refs"
)

// ---------- key pool for 160-bit trees (idea of c08: hashed-key structure searched by brute force) ----------

type hk struct {
	h [20]byte
	k []byte
}

type pool struct {
	sorted    []hk     // all candidate keys in hash order (neighbour lookup)
	clustered [][]byte // triples: two keys whose hashes share a long prefix + their hash-order neighbour
	border    [][]byte // keys hashing next to the 8 sub-tree borders / the sentinels
	maxShared int
}

func rawKey(i uint32) []byte {
	var b [4]byte
	binary.BigEndian.PutUint32(b[:], i)
	return lib.JoinLenPrefix([]byte{byte(1 + i%3)}, b[:]) // a realistic two-segment state key
}

func buildPool(rng *rand.Rand, n int) *pool {
	base := rng.Uint32()
	all := make([]hk, n)
	for i := range all {
		k := rawKey(base + uint32(i))
		s := sha256.Sum256(k)
		copy(all[i].h[:], s[:20])
		all[i].k = k
	}
	sort.Slice(all, func(i, j int) bool { return bytes.Compare(all[i].h[:], all[j].h[:]) < 0 })
	p := &pool{sorted: all}
	type pr struct{ i, cp int }
	prs := make([]pr, 0, n)
	for i := 1; i < n; i++ {
		cp := 0
		for cp < 160 && (all[i].h[cp/8]>>(7-uint(cp%8)))&1 == (all[i-1].h[cp/8]>>(7-uint(cp%8)))&1 {
			cp++
		}
		prs = append(prs, pr{i, cp})
	}
	sort.Slice(prs, func(a, b int) bool { return prs[a].cp > prs[b].cp })
	for _, x := range prs[:64] {
		nb := x.i + 1
		if nb >= n {
			nb = x.i - 2
		}
		p.clustered = append(p.clustered, all[x.i].k, all[x.i-1].k, all[nb].k)
	}
	p.maxShared = prs[0].cp
	start := 0
	for r := 0; r < 8; r++ {
		end := sort.Search(n, func(i int) bool { return int(all[i].h[0]>>5) > r })
		for j := 0; j < 3 && start+j < end; j++ {
			p.border = append(p.border, all[start+j].k, all[end-1-j].k)
		}
		start = end
	}
	return p
}

// universe draws `size` distinct raw keys: whole clusters, border keys, uniform keys, and hash-order
// neighbours of already drawn keys (so that absent keys hash right next to present ones).
func (p *pool) universe(rng *rand.Rand, size int) [][]byte {
	seen := map[string]bool{}
	var out [][]byte
	add := func(k []byte) {
		if !seen[string(k)] {
			seen[string(k)] = true
			out = append(out, k)
		}
	}
	for len(out) < size {
		switch rng.Intn(5) {
		case 0:
			i := rng.Intn(len(p.clustered)/3) * 3
			add(p.clustered[i])
			add(p.clustered[i+1])
			add(p.clustered[i+2])
		case 1:
			add(p.border[rng.Intn(len(p.border))])
		case 2:
			if len(out) > 0 { // a hash-order neighbour of a key already in the universe
				k := out[rng.Intn(len(out))]
				s := sha256.Sum256(k)
				i := sort.Search(len(p.sorted), func(i int) bool { return bytes.Compare(p.sorted[i].h[:], s[:20]) >= 0 })
				j := i + 1 - 2*rng.Intn(2)
				if j >= 0 && j < len(p.sorted) {
					add(p.sorted[j].k)
				}
			}
		default:
			add(p.sorted[rng.Intn(len(p.sorted))].k)
		}
	}
	return out
}

// ---------- short-key universes (dense trees through the verif hook) ----------

func forbidden(leaf refs.BitKey, nbits int) bool {
	enc := leaf.Encode()
	for _, b := range [][]byte{make([]byte, 20), bytes.Repeat([]byte{0xFF}, 20), store.RootKey} {
		if bytes.Equal(enc, refs.BitKey{B: b, N: nbits}.Prefix(nbits).Encode()) {
			return true
		}
	}
	for r := 0; r < 8; r++ { // the synthetic borders the parallel commit inserts temporarily
		lo := append([]byte{byte(r) << 5}, make([]byte, 19)...)
		hi := append([]byte{byte(r)<<5 | 0x1F}, bytes.Repeat([]byte{0xFF}, 19)...)
		if bytes.Equal(enc, refs.BitKey{B: lo, N: nbits}.Prefix(nbits).Encode()) || bytes.Equal(enc, refs.BitKey{B: hi, N: nbits}.Prefix(nbits).Encode()) {
			return true
		}
	}
	return false
}

func universeShort(rng *rand.Rand, nbits, size int) [][]byte {
	seen := map[string]bool{}
	var out [][]byte
	for tries := 0; len(out) < size && tries < size*50; tries++ {
		k := rawKey(rng.Uint32())
		lk := refs.LeafKey(k, nbits)
		if forbidden(lk, nbits) || seen[string(lk.B)] {
			continue
		}
		seen[string(lk.B)] = true
		out = append(out, k)
	}
	return out
}

// ---------- guarded calls ----------

var watchdog = func() time.Duration { // generous; firing is INCONCLUSIVE, never a verdict
	if v, err := time.ParseDuration(os.Getenv("VERIF_C16_WATCHDOG")); err == nil && v > 0 {
		return v
	}
	return 120 * time.Second
}()
var aborted atomic.Bool // set when a call did not return: remaining cases are skipped

type pinfo struct {
	Msg   string `json:"panic"`
	At    string `json:"at"`
	Where string `json:"where"`
	norm  string
}

var digits = regexp.MustCompile(`[0-9]+`)

func describePanic(r any) *pinfo {
	p := &pinfo{Msg: fmt.Sprint(r), At: "?"}
	p.norm = strings.ReplaceAll(digits.ReplaceAllString(p.Msg, "N"), " ", "-")
	if len(p.norm) > 60 {
		p.norm = p.norm[:60]
	}
	pcs := make([]uintptr, 64)
	n := runtime.Callers(2, pcs)
	fr := runtime.CallersFrames(pcs[:n])
	for {
		f, more := fr.Next()
		if i := strings.Index(f.Function, "github.com/canopy-network/canopy/"); i >= 0 {
			p.At = f.Function[i+len("github.com/canopy-network/canopy/"):]
			p.Where = fmt.Sprintf("%s:%d", f.File[strings.LastIndex(f.File, "/canopy/")+1:], f.Line)
			if j := strings.LastIndex(f.File, "/store/"); j >= 0 {
				p.Where = fmt.Sprintf("%s:%d", f.File[j+1:], f.Line)
			}
			break
		}
		if !more {
			break
		}
	}
	return p
}

// guarded runs fn on its own goroutine, converting a panic into a value and a missing return into hung=true.
func guarded(fn func()) (p *pinfo, hung bool) {
	done := make(chan *pinfo, 1)
	go func() {
		defer func() {
			if r := recover(); r != nil {
				done <- describePanic(r)
			}
		}()
		fn()
		done <- nil
	}()
	select {
	case p = <-done:
		return p, false
	case <-time.After(watchdog):
		return nil, true
	}
}

// ---------- claims, proofs ----------

type verifier interface {
	VerifyProof(key, value []byte, validateMembership bool, root []byte, proof []*lib.Node) (bool, lib.ErrorI)
}

type model map[string][]byte

func (m model) clone() model {
	c := make(model, len(m))
	for k, v := range m {
		c[k] = v
	}
	return c
}

type claim struct {
	key    []byte
	val    []byte
	member bool
	label  string
}

func (c claim) trueIn(s model) bool {
	v, ok := s[string(c.key)]
	if c.member {
		return ok && bytes.Equal(v, c.val)
	}
	return !ok
}

// falseKind names the type of claim that would be wrongly accepted.
func (c claim) falseKind(s model) string {
	_, ok := s[string(c.key)]
	switch {
	case !c.member:
		return "soundness-nonmembership-of-present-key"
	case ok:
		return "soundness-membership-of-absent-pair keystate=present-with-other-value"
	default:
		return "soundness-membership-of-absent-pair keystate=absent"
	}
}

func cloneProof(p []*lib.Node) []*lib.Node {
	if p == nil {
		return nil
	}
	out := make([]*lib.Node, len(p))
	for i, n := range p {
		if n == nil {
			continue
		}
		c := &lib.Node{Bitmask: n.Bitmask}
		if n.Key != nil {
			c.Key = append(make([]byte, 0, len(n.Key)), n.Key...)
		}
		if n.Value != nil {
			c.Value = append(make([]byte, 0, len(n.Value)), n.Value...)
		}
		out[i] = c
	}
	return out
}

type nodeJ struct {
	Key     string `json:"key"`
	Bits    string `json:"key_bits,omitempty"`
	Value   string `json:"value"`
	Bitmask int32  `json:"bitmask"`
}

func proofJ(p []*lib.Node) any {
	if p == nil {
		return nil
	}
	out := make([]any, len(p))
	for i, n := range p {
		if n == nil {
			out[i] = nil
			continue
		}
		b, _ := decodeKey(n.Key)
		if len(b) > 24 {
			b = fmt.Sprintf("%s…(%d bits)", b[:24], len(b))
		}
		out[i] = nodeJ{Key: hex.EncodeToString(n.Key), Bits: b, Value: hex.EncodeToString(n.Value), Bitmask: n.Bitmask}
	}
	return out
}

type mproof struct {
	shape  string
	detail string
	proof  []*lib.Node
}

func junkNode(rng *rand.Rand, nbits int) *lib.Node {
	b := make([]byte, 20)
	rng.Read(b)
	v := make([]byte, 32)
	rng.Read(v)
	n := 1 + rng.Intn(nbits)
	return &lib.Node{Key: refs.BitKey{B: b, N: n}.Prefix(n).Encode(), Value: v, Bitmask: int32(rng.Intn(2))}
}

// mutations derives the malformed variants of one honest proof. Families are fixed; positions are drawn.
func mutations(rng *rand.Rand, h []*lib.Node, nbits, nFlips int) []mproof {
	var out []mproof
	L := len(h)
	add := func(shape, detail string, p []*lib.Node) { out = append(out, mproof{shape, detail, p}) }
	if L < 2 {
		return nil
	}
	add("truncate-last", "", cloneProof(h[:L-1]))
	add("truncate-first", "", cloneProof(h[1:]))
	add("only-first", "", cloneProof(h[:1]))
	add("empty", "", []*lib.Node{})
	add("nil", "", nil)
	if L >= 3 {
		i := 1 + rng.Intn(L-2)
		p := cloneProof(h)
		add("truncate-mid", fmt.Sprint("removed node ", i), append(p[:i], p[i+1:]...))
		i = 1 + rng.Intn(L-2)
		p = cloneProof(h)
		p[i], p[i+1] = p[i+1], p[i]
		add("swap-siblings", fmt.Sprint("swapped ", i, " and ", i+1), p)
		p = cloneProof(h)
		for a, b := 1, L-1; a < b; a, b = a+1, b-1 {
			p[a], p[b] = p[b], p[a]
		}
		add("reverse-siblings", "", p)
	}
	p := cloneProof(h)
	add("extend-dup-last", "", append(p, cloneProof(h[L-1:])...))
	add("extend-junk", "", append(cloneProof(h), junkNode(rng, nbits)))
	add("prepend-junk", "", append([]*lib.Node{junkNode(rng, nbits)}, cloneProof(h)...))
	// the sibling leaf presented as the proven node (an honest proof for the sibling if it is a leaf)
	p = cloneProof(h)
	p[0], p[1] = p[1], p[0]
	p[1].Bitmask, p[0].Bitmask = 1-p[0].Bitmask, 0
	add("swap-leaf-and-sibling", "", p)
	// side bits
	i := 1 + rng.Intn(L-1)
	p = cloneProof(h)
	p[i].Bitmask = 1 - p[i].Bitmask
	add("bitmask-flip-one", fmt.Sprint("node ", i), p)
	p = cloneProof(h)
	for j := 1; j < L; j++ {
		p[j].Bitmask = 1 - p[j].Bitmask
	}
	add("bitmask-flip-all", "", p)
	for _, bm := range []int32{2, -1, 1 << 30} {
		j := 1 + rng.Intn(L-1)
		p = cloneProof(h)
		p[j].Bitmask = bm
		add("bitmask-out-of-range", fmt.Sprint("node ", j, " bitmask ", bm), p)
	}
	p = cloneProof(h)
	p[0].Bitmask = 1
	add("bitmask-on-proof0", "", p)
	// single-bit flips in node keys / values (the meta byte of every key at least once per nFlips budget)
	for f := 0; f < nFlips; f++ {
		j := rng.Intn(L)
		p = cloneProof(h)
		if f%2 == 0 && len(p[j].Key) > 0 {
			b := rng.Intn(len(p[j].Key))
			if f%4 == 0 {
				b = len(p[j].Key) - 1 - rng.Intn(min(2, len(p[j].Key))) // meta byte / last data byte
			}
			bit := uint(rng.Intn(8))
			p[j].Key[b] ^= 1 << bit
			add("byteflip-key", fmt.Sprintf("node %d byte %d bit %d", j, b, bit), p)
		} else if len(p[j].Value) > 0 {
			b := rng.Intn(len(p[j].Value))
			bit := uint(rng.Intn(8))
			p[j].Value[b] ^= 1 << bit
			add("byteflip-value", fmt.Sprintf("node %d byte %d bit %d", j, b, bit), p)
		}
	}
	// illegal key encodings
	for _, j := range []int{0, 1 + rng.Intn(L-1)} {
		for _, meta := range []byte{8, 9, 255} {
			p = cloneProof(h)
			p[j].Key[len(p[j].Key)-1] = meta
			add("key-meta-illegal", fmt.Sprintf("node %d meta %d", j, meta), p)
		}
		p = cloneProof(h)
		p[j].Key[len(p[j].Key)-1] = 7
		p[j].Key[len(p[j].Key)-2] |= 0x80 // 7 padding bits + 8 significant bits in one byte
		add("key-meta-illegal", fmt.Sprintf("node %d meta 7 with full last byte", j), p)
		p = cloneProof(h)
		p[j].Key = []byte{p[j].Key[0]}
		add("key-len1", fmt.Sprint("node ", j), p)
		p = cloneProof(h)
		p[j].Key = nil
		add("key-empty", fmt.Sprint("node ", j, " nil"), p)
		p = cloneProof(h)
		p[j].Key = []byte{}
		add("key-empty", fmt.Sprint("node ", j, " zero-length"), p)
		p = cloneProof(h)
		p[j].Key = append(bytes.Repeat([]byte{0xAB}, 299), 0)
		add("key-long", fmt.Sprint("node ", j, " 300 bytes"), p)
		p = cloneProof(h)
		p[j].Value = nil
		add("value-empty", fmt.Sprint("node ", j), p)
		p = cloneProof(h)
		p[j] = nil
		add("nil-node", fmt.Sprint("node ", j), p)
	}
	// a sibling whose key is a prefix of / an extension of the path node next to it
	if path, _, ok := pathKeys(h); ok {
		j := 1 + rng.Intn(L-1)
		cur := path[j-1]
		if len(cur) >= 2 {
			p = cloneProof(h)
			p[j].Key = encodeBits(cur[:1+rng.Intn(len(cur)-1)])
			add("sibling-key-prefix-of-path", fmt.Sprint("node ", j), p)
		}
		if len(cur) >= 1 && len(cur) < nbits {
			p = cloneProof(h)
			p[j].Key = encodeBits(cur + "1")
			add("sibling-key-extends-path", fmt.Sprint("node ", j), p)
		}
		p = cloneProof(h)
		p[j].Key = encodeBits(cur)
		add("sibling-key-equals-path", fmt.Sprint("node ", j), p)
	}
	// proof[0] replaced by an inner node: the parent of proof[0] and proof[1] as the "proven" node, repeatedly
	cur := cloneProof(h)
	for lvl := 1; lvl <= 3 && len(cur) >= 3; lvl++ {
		par, ok := parentOf(cur)
		if !ok {
			break
		}
		cur = append([]*lib.Node{par}, cur[2:]...)
		add("inner-as-leaf", fmt.Sprint("level ", lvl), cloneProof(cur))
	}
	// the boundary between the key and the value of an entry moved: a parent hashes key||value||key||value without length
	// framing, so {key[:j], key[j:]||value} (or {key||value[:m], value[m:]}) reproduces the same hash chain
	okKey := func(k []byte) bool { // well-formed node key of at most nbits bits
		if len(k) < 2 {
			return false
		}
		bl, pad := bits.Len8(k[len(k)-2]), int(k[len(k)-1])
		if bl == 0 {
			bl = 1
		}
		return pad+bl <= 8 && (len(k)-2)*8+pad+bl <= nbits
	}
	for i := 0; i < L && i < 3; i++ {
		shifted := 0
		for j := 2; j < len(h[i].Key) && shifted < 4; j++ {
			if kp := h[i].Key[:j]; okKey(kp) {
				p := cloneProof(h)
				p[i].Key = bytes.Clone(kp)
				p[i].Value = append(bytes.Clone(h[i].Key[j:]), h[i].Value...)
				add("boundary-shift-key-to-value", fmt.Sprintf("entry %d split %d", i, j), p)
				shifted++
			}
		}
		for m := 1; m <= 3 && m < len(h[i].Value); m++ {
			if kp := append(bytes.Clone(h[i].Key), h[i].Value[:m]...); okKey(kp) {
				p := cloneProof(h)
				p[i].Key, p[i].Value = kp, bytes.Clone(h[i].Value[m:])
				add("boundary-shift-value-to-key", fmt.Sprintf("entry %d take %d", i, m), p)
			}
		}
	}
	return out
}

// ---------- the monitor ----------

// sink is what a case reports to: the core.Run itself, or (in a child process) a recorder whose content
// the parent replays into its core.Run.
type sink interface {
	Count(name string, n int64)
	Violation(sig, caseName string, witness any) bool
	Eval(n int)
	Distinct(key string)
	Sample(v any)
	Inconclusive(format string, a ...any)
}

type env struct {
	run  sink
	name string // case name (replay selector)
	sub  int    // subject counter (position in the case, for the last-call log)
}

type tctx struct {
	level string // "smt" | "store"
	ver   verifier
	nbits int
	set   model
	root  []byte
	desc  map[string]any // how the state was built (for witnesses)
}

func (t *tctx) leaf(k []byte) string { return bitString(refs.LeafKey(k, t.nbits)) }

func setJ(s model, nbits int) any {
	if len(s) > 12 {
		return fmt.Sprintf("%d keys (see case replay)", len(s))
	}
	out := map[string]string{}
	for k, v := range s {
		b := bitString(refs.LeafKey([]byte(k), nbits))
		if len(b) > 24 {
			b = b[:24] + "…"
		}
		out[hex.EncodeToString([]byte(k))+" leaf="+b] = string(v)
	}
	return out
}

// verify runs one guarded VerifyProof and applies the soundness + robustness oracles. Returns the verdict.
func (e *env) verify(t *tctx, proof []*lib.Node, c claim, shape, detail string) (accepted bool) {
	if aborted.Load() {
		return false
	}
	arg := cloneProof(proof)
	logCall(e.name, t, shape, detail, c, proof)
	var ok bool
	var err lib.ErrorI
	p, hung := guarded(func() { ok, err = t.ver.VerifyProof(c.key, c.val, c.member, t.root, arg) })
	e.run.Count("verifications", 1)
	e.run.Count("verifications_"+t.level, 1)
	chain := "broken"
	if chainOK(proof, t.root) {
		chain = "ok"
		e.run.Count("verifications_with_root_consistent_proof", 1)
	}
	wit := func() map[string]any {
		w := map[string]any{"level": t.level, "key_bits": t.nbits, "shape": shape, "detail": detail, "claim": c.label,
			"claimed_key": hex.EncodeToString(c.key), "claimed_key_leaf": t.leaf(c.key), "claimed_value": string(c.val),
			"claimed_membership": c.member, "claim_true_in_set": c.trueIn(t.set), "root": hex.EncodeToString(t.root),
			"proof": proofJ(proof), "proof_hash_chain_ends_in_root": chain, "set": setJ(t.set, t.nbits), "state": t.desc,
			"relation_of_key_to_proof": relation(proof, t.leaf(c.key))}
		if v, ok := t.set[string(c.key)]; ok {
			w["actual_value_of_claimed_key"] = string(v)
		}
		return w
	}
	if hung {
		aborted.Store(true)
		e.run.Inconclusive("watchdog: VerifyProof did not return within %v (case %s shape %s claim %s key %x)", watchdog, e.name, shape, c.label, c.key)
		e.run.Sample(map[string]any{"hung_call": wit()})
		return false
	}
	if p != nil {
		e.run.Count("panics_VerifyProof", 1)
		w := wit()
		w["panic"] = p
		e.run.Violation(fmt.Sprintf("panic call=VerifyProof at=%s msg=%s chain=%s shape=%s", p.At, p.norm, chain, shape), e.name, w)
		return false
	}
	if !ok {
		e.run.Count("rejected", 1)
		return false
	}
	if c.trueIn(t.set) {
		e.run.Count("accepted_true_claims", 1)
		return true
	}
	e.run.Count("accepted_FALSE_claims", 1)
	w := wit()
	if err != nil {
		w["err"] = err.Error()
	}
	e.run.Violation(fmt.Sprintf("%s rel=%s chain=%s shape=%s", c.falseKind(t.set), relation(proof, t.leaf(c.key)), chain, shape), e.name, w)
	return true
}

// logCall overwrites the last-call file with the input about to be used (child processes only), so that a
// crash the runtime cannot recover from still leaves its input behind.
var lastCallPath string

func logCall(name string, t *tctx, shape, detail string, c claim, proof []*lib.Node) {
	if lastCallPath == "" {
		return
	}
	var sb strings.Builder
	fmt.Fprintf(&sb, "case=%s level=%s bits=%d shape=%s detail=%q claim=%s key=%x value=%q member=%v root=%x proof=", name, t.level, t.nbits, shape, detail, c.label, c.key, c.val, c.member, t.root)
	for _, n := range proof {
		if n == nil {
			sb.WriteString("[nil]")
			continue
		}
		fmt.Fprintf(&sb, "[%x|%x|%d]", n.Key, n.Value, n.Bitmask)
	}
	_ = os.WriteFile(lastCallPath, []byte(sb.String()), 0o644)
}

type subject struct {
	key     []byte
	present bool
	val     []byte
	proof   []*lib.Node // as returned by the real generator (nil if it failed)
	honest  bool        // the proof verified for its own statement (completeness held)
}

func (s subject) ownClaim() claim {
	if s.present {
		return claim{key: s.key, val: s.val, member: true, label: "own-key-member-real-value"}
	}
	return claim{key: s.key, member: false, label: "own-key-nonmember"}
}

// neighbours orders the candidate keys by the length of the hash prefix they share with k (longest first).
func neighbours(t *tctx, k []byte, cands [][]byte) [][]byte {
	lk := t.leaf(k)
	type sc struct {
		k  []byte
		cp int
	}
	var l []sc
	for _, c := range cands {
		if !bytes.Equal(c, k) {
			l = append(l, sc{c, commonPrefixLen(lk, t.leaf(c))})
		}
	}
	sort.SliceStable(l, func(i, j int) bool { return l[i].cp > l[j].cp })
	out := make([][]byte, len(l))
	for i := range l {
		out[i] = l[i].k
	}
	return out
}

func claimsAbout(t *tctx, b []byte, subj subject, tag string) []claim {
	var cs []claim
	if v, ok := t.set[string(b)]; ok {
		cs = append(cs, claim{key: b, val: v, member: true, label: tag + "-member-real-value"})
	} else {
		cs = append(cs, claim{key: b, val: []byte("value-of-an-absent-key"), member: true, label: tag + "-member-some-value"})
	}
	if subj.present && !bytes.Equal(b, subj.key) {
		cs = append(cs, claim{key: b, val: subj.val, member: true, label: tag + "-member-value-of-proof-subject"})
	}
	cs = append(cs, claim{key: b, member: false, label: tag + "-nonmember"})
	return cs
}

type sizes struct {
	crossKeys int // other keys every honest proof is presented for (nearest first, then uniform)
	families  int // malformed-proof variants drawn per honest proof (0 = all)
	flips     int // single-bit flips per honest proof
}

// adversarial presents the subject's proof and its malformed variants with every claim of the list.
func (e *env) adversarial(t *tctx, rng *rand.Rand, subj subject, uni [][]byte, sz sizes) {
	if subj.proof == nil {
		return
	}
	nb := neighbours(t, subj.key, uni)
	// (1) the proof as generated, for claims about its own key
	own := []claim{{key: subj.key, val: []byte("some-other-value"), member: true, label: "own-key-member-wrong-value"}}
	if subj.present {
		own = append(own, claim{key: subj.key, member: false, label: "own-key-nonmember"},
			claim{key: subj.key, val: nil, member: true, label: "own-key-member-nil-value"},
			claim{key: subj.key, val: subj.val, member: false, label: "own-key-nonmember-passing-the-real-value"})
	}
	for _, c := range own {
		e.verify(t, subj.proof, c, "honest-own-key", "")
	}
	if subj.present {
		// wrong values whose hash agrees with the real value's hash in the first / the last byte
		for _, c := range nearValues(subj) {
			e.verify(t, subj.proof, c, "honest-own-key", "")
		}
	}
	// (2) the proof as generated, for claims about other keys
	bs := nb
	if len(bs) > sz.crossKeys {
		near := sz.crossKeys * 2 / 3
		far := append([][]byte{}, nb[near:]...)
		rng.Shuffle(len(far), func(i, j int) { far[i], far[j] = far[j], far[i] })
		bs = append(append([][]byte{}, nb[:near]...), far[:sz.crossKeys-near]...)
	}
	for _, b := range bs {
		rel := relation(subj.proof, t.leaf(b))
		_, present := t.set[string(b)]
		e.run.Count(fmt.Sprintf("otherkey_claims rel=%s present=%v", rel, present), 1)
		for _, c := range claimsAbout(t, b, subj, "other-key") {
			e.verify(t, subj.proof, c, "honest-other-key", "")
		}
	}
	// (3) malformed variants: the subject's true claim (a harmless variant may still prove it), the opposite
	// claim about the subject, and a false claim about its nearest hash neighbour
	cl := []claim{subj.ownClaim(), own[len(own)-1]}
	if subj.present {
		cl[1] = own[1]
	}
	if len(nb) > 0 {
		for _, c := range claimsAbout(t, nb[0], subj, "neighbour") {
			if !c.trueIn(t.set) {
				cl = append(cl, c)
				break
			}
		}
	}
	ms := mutations(rng, subj.proof, t.nbits, sz.flips)
	if sz.families > 0 && len(ms) > sz.families+sz.flips {
		var fl, fam []mproof
		for _, m := range ms {
			if strings.HasPrefix(m.shape, "byteflip") || strings.HasPrefix(m.shape, "boundary-shift") {
				fl = append(fl, m)
			} else {
				fam = append(fam, m)
			}
		}
		rng.Shuffle(len(fam), func(i, j int) { fam[i], fam[j] = fam[j], fam[i] })
		ms = append(fam[:min(len(fam), sz.families)], fl...)
	}
	for _, m := range ms {
		e.run.Count("malformed_proofs", 1)
		e.run.Count("malformed shape="+m.shape, 1)
		for _, c := range cl {
			e.verify(t, m.proof, c, m.shape, m.detail)
		}
	}
}

func nearValues(subj subject) []claim {
	want := sha256.Sum256(subj.val)
	var first, last []byte
	for i := 0; i < 1<<16 && (first == nil || last == nil); i++ {
		v := []byte(fmt.Sprintf("%s#%d", subj.val, i))
		h := sha256.Sum256(v)
		if first == nil && h[0] == want[0] {
			first = v
		}
		if last == nil && h[31] == want[31] {
			last = v
		}
	}
	return []claim{{key: subj.key, val: first, member: true, label: "own-key-member-wrong-value-same-first-hash-byte"},
		{key: subj.key, val: last, member: true, label: "own-key-member-wrong-value-same-last-hash-byte"}}
}

// otherVersion presents a proof generated at an earlier root against the current root.
func (e *env) otherVersion(t *tctx, old subject, oldSet model) {
	if old.proof == nil {
		return
	}
	cl := []claim{old.ownClaim()}
	if v, ok := t.set[string(old.key)]; ok {
		cl = append(cl, claim{key: old.key, val: v, member: true, label: "own-key-member-current-value"})
	}
	cl = append(cl, claim{key: old.key, member: !old.present, val: []byte("w"), label: "own-key-opposite-of-old-status"})
	for _, c := range cl {
		e.run.Count("other_version_claims", 1)
		if c.trueIn(oldSet) && !c.trueIn(t.set) {
			e.run.Count("other_version_claims_true_then_false_now", 1)
		}
		e.verify(t, old.proof, c, "other-version", "")
	}
}

// ---------- SMT level (tree built through the verif hook, short and 160-bit keys) ----------

var smtPrefix = lib.JoinLenPrefix([]byte("t/"))

func newStore(t testing.TB) *store.Store {
	cfg := lib.DefaultConfig()
	cfg.StoreConfig.LSSCompactionInterval = 0
	s, err := store.NewStoreInMemory(lib.NewNullLogger(), cfg)
	if err != nil {
		t.Fatalf("NewStoreInMemory: %v", err)
	}
	return s.(*store.Store)
}

func newTree(t testing.TB, nbits int) (*store.SMT, *store.Txn, *store.Store) {
	st := newStore(t)
	db := st.DB()
	vs := store.NewVersionedStore(db.NewSnapshot(), db.NewBatch(), 1)
	txn := store.NewTxn(vs, vs, smtPrefix, false, false, true, 1)
	return store.NewSMT(store.RootKey, nbits, txn), txn, st
}

// smtSubject obtains the proof for k from the real generator and applies the completeness oracle.
func (e *env) smtSubject(t *tctx, tree *store.SMT, k []byte) subject {
	v, present := t.set[string(k)]
	s := subject{key: k, present: present, val: v}
	var proof []*lib.Node
	var err lib.ErrorI
	p, hung := guarded(func() { proof, err = tree.GetMerkleProof(k) })
	e.run.Count("proofs_generated_smt", 1)
	base := map[string]any{"level": "smt", "key_bits": t.nbits, "key": hex.EncodeToString(k), "key_leaf": t.leaf(k), "present": present,
		"root": hex.EncodeToString(t.root), "set": setJ(t.set, t.nbits), "state": t.desc}
	switch {
	case hung:
		aborted.Store(true)
		e.run.Inconclusive("watchdog: GetMerkleProof did not return (case %s key %x)", e.name, k)
		return s
	case p != nil:
		base["panic"] = p
		e.run.Violation(fmt.Sprintf("panic call=GetMerkleProof at=%s msg=%s", p.At, p.norm), e.name, base)
		return s
	case err != nil:
		base["err"] = err.Error()
		e.run.Violation(fmt.Sprintf("completeness-smt outcome=getproof-error claim=%s", memb(present)), e.name, base)
		return s
	}
	s.proof = proof
	c := s.ownClaim()
	arg := cloneProof(proof)
	var ok bool
	p, hung = guarded(func() { ok, err = t.ver.VerifyProof(c.key, c.val, c.member, t.root, arg) })
	e.run.Count("completeness_checks_smt", 1)
	e.run.Count("verifications", 1)
	base["proof"] = proofJ(proof)
	switch {
	case hung:
		aborted.Store(true)
		e.run.Inconclusive("watchdog: VerifyProof(honest) did not return (case %s key %x)", e.name, k)
	case p != nil:
		base["panic"] = p
		e.run.Violation(fmt.Sprintf("panic call=VerifyProof at=%s msg=%s shape=honest-own-claim", p.At, p.norm), e.name, base)
	case err != nil:
		base["err"] = err.Error()
		e.run.Violation(fmt.Sprintf("completeness-smt outcome=verify-error claim=%s", memb(present)), e.name, base)
	case !ok:
		e.run.Violation(fmt.Sprintf("completeness-smt outcome=verify-false claim=%s", memb(present)), e.name, base)
	default:
		s.honest = true
		e.run.Count("honest_proofs_verified_smt", 1)
		e.run.Count(fmt.Sprintf("honest_proofs_verified claim=%s proof0=%s", memb(present), proof0Kind(proof, t.nbits)), 1)
	}
	return s
}

func memb(present bool) string {
	if present {
		return "member"
	}
	return "nonmember"
}

func proof0Kind(p []*lib.Node, nbits int) string {
	if len(p) == 0 || p[0] == nil {
		return "none"
	}
	b, ok := decodeKey(p[0].Key)
	switch {
	case !ok:
		return "unparseable"
	case len(b) == nbits:
		return "leaf"
	}
	return "inner"
}

type smtParams struct {
	nbits            int
	uniSize          int
	rounds           int
	subjectsPerRound int
	sz               sizes
}

func (e *env) smtCase(t *testing.T, p *pool, rng *rand.Rand, sp smtParams) {
	var uni [][]byte
	if sp.nbits == 160 {
		uni = p.universe(rng, sp.uniSize)
	} else {
		uni = universeShort(rng, sp.nbits, sp.uniSize)
	}
	tree, txn, st := newTree(t, sp.nbits)
	defer st.Close()
	set := model{}
	var hist []string
	type oldp struct {
		s   subject
		set model
	}
	var olds []oldp
	vc := 0
	var tc *tctx
	for r := 0; r < sp.rounds; r++ {
		sets := map[string][]byte{}
		var dels []string
		for _, k := range uni {
			_, present := set[string(k)]
			switch {
			case r == 0 && rng.Intn(3) != 0, r > 0 && !present && rng.Intn(4) == 0, present && rng.Intn(5) == 0:
				vc++
				v := []byte(fmt.Sprintf("v%d", vc))
				if rng.Intn(10) == 0 && len(set) > 0 {
					v = []byte("shared-value") // several keys with one value: claims "B has A's value" can be true
				}
				sets[string(k)], set[string(k)] = v, v
			case r > 0 && present && rng.Intn(4) == 0:
				dels = append(dels, string(k))
				delete(set, string(k))
			}
		}
		parallel := rng.Intn(2) == 0
		if len(sets)+len(dels) > 0 {
			if err := store.VerifSMTCommit(tree, sets, dels, parallel); err != nil {
				t.Fatalf("smt commit: %v", err)
			}
		}
		hist = append(hist, fmt.Sprintf("batch sets=%d dels=%d parallel=%v", len(sets), len(dels), parallel))
		root := tree.Root()
		// proofs are read through a second SMT object over the same transaction, as the Store does with its
		// read-only views (GetMerkleProof leaves traversal state behind that Commit() does not reset)
		view := store.NewSMT(store.RootKey, sp.nbits, txn)
		if !bytes.Equal(view.Root(), root) {
			t.Fatalf("harness: re-opened tree has another root")
		}
		if want := refs.CanonicalRoot(set, sp.nbits); !bytes.Equal(root, want) {
			e.run.Count("roots_differing_from_canonical_reference(C08's concern)", 1)
		}
		tc = &tctx{level: "smt", ver: view, nbits: sp.nbits, set: set.clone(), root: root,
			desc: map[string]any{"built": "store.NewSMT + VerifSMTCommit", "history": append([]string{}, hist...), "set_size": len(set)}}
		// subjects: present and absent keys; completeness for each
		perm := rng.Perm(len(uni))
		var subs []subject
		np, na := 0, 0
		for _, i := range perm {
			_, present := set[string(uni[i])]
			if (present && np >= (sp.subjectsPerRound+1)/2) || (!present && na >= sp.subjectsPerRound/2) {
				continue
			}
			if present {
				np++
			} else {
				na++
			}
			subs = append(subs, e.smtSubject(tc, view, uni[i]))
		}
		if r < sp.rounds-1 {
			for _, s := range subs {
				olds = append(olds, oldp{s, tc.set})
			}
			continue
		}
		for _, s := range subs {
			e.adversarial(tc, rng, s, uni, sp.sz)
		}
		for _, o := range olds {
			e.otherVersion(tc, o.s, o.set)
		}
	}
	e.run.Eval(1)
	if len(tc.set) >= 2 {
		e.run.Distinct(fmt.Sprintf("smt/%d/%x/%d", sp.nbits, tc.root[:8], len(tc.set)))
	}
	if rng.Intn(10) == 0 {
		e.run.Sample(map[string]any{"case": e.name, "level": "smt", "key_bits": sp.nbits, "universe": len(uni), "final_set": len(tc.set), "history": hist})
	}
}

// ---------- Store level ----------

// emptyRoot160 is the root of the 160-bit tree that holds only the two sentinels.
var emptyRoot160 = refs.CanonicalRoot(map[string][]byte{}, 160)

type storeParams struct {
	uniSize, blocks, keysPerVersion int
	sz                              sizes
	advSubjects                     int
}

func (e *env) storeCase(t *testing.T, p *pool, rng *rand.Rand, sp storeParams) {
	st := newStore(t)
	defer st.Close()
	uni := p.universe(rng, sp.uniSize)
	set := model{}
	var hist []string
	type ver struct {
		v    uint64
		root []byte
		set  model
	}
	var vers []ver
	vc := 0
	for b := 0; b < sp.blocks; b++ {
		ns, nd := 0, 0
		for _, k := range uni {
			_, present := set[string(k)]
			switch {
			case b == 0 && rng.Intn(3) != 0, b > 0 && !present && rng.Intn(4) == 0, present && rng.Intn(5) == 0:
				vc++
				v := []byte(fmt.Sprintf("v%d", vc))
				if rng.Intn(10) == 0 && len(set) > 0 {
					v = []byte("shared-value")
				}
				if err := st.Set(k, v); err != nil {
					t.Fatalf("set: %v", err)
				}
				set[string(k)] = v
				ns++
			case b > 0 && present && rng.Intn(4) == 0:
				if err := st.Delete(k); err != nil {
					t.Fatalf("delete: %v", err)
				}
				delete(set, string(k))
				nd++
			}
		}
		root, err := st.Commit()
		if err != nil {
			t.Fatalf("commit: %v", err)
		}
		hist = append(hist, fmt.Sprintf("block %d: sets=%d dels=%d -> Commit() version %d", b, ns, nd, st.Version()))
		vers = append(vers, ver{st.Version(), root, set.clone()})
		e.run.Count("store_commits", 1)
		// sometimes the newest heights are rolled back and replaced: proofs for the heights committed afterwards (and for
		// the surviving ones) must verify against the roots committed for them
		if len(vers) >= 3 && b < sp.blocks-1 && rng.Intn(4) == 0 {
			keep := 1 + rng.Intn(len(vers)-1)
			if err := st.Rollback(vers[keep-1].v); err != nil {
				t.Fatalf("rollback: %v", err)
			}
			vers = vers[:keep]
			set = vers[keep-1].set.clone()
			hist = append(hist, fmt.Sprintf("Rollback(%d)", vers[keep-1].v))
			e.run.Count("store_rollbacks", 1)
		}
	}
	type got struct {
		s   subject
		ver int
	}
	var all []got
	var lastRO lib.StoreI
	for vi, vv := range vers {
		when := "historic"
		if vi == len(vers)-1 {
			when = "latest"
		}
		desc := map[string]any{"built": "store.Store Set/Delete/Commit", "history": hist, "version": vv.v, "of_versions": len(vers), "set_size": len(vv.set)}
		var ro lib.StoreI
		var err lib.ErrorI
		pn, hung := guarded(func() { ro, err = st.NewReadOnly(vv.v) })
		if hung {
			aborted.Store(true)
			e.run.Inconclusive("watchdog: NewReadOnly did not return (case %s)", e.name)
			return
		}
		if pn != nil || err != nil {
			w := map[string]any{"state": desc, "panic": pn}
			if err != nil {
				w["err"] = err.Error()
			}
			if pn != nil {
				e.run.Violation(fmt.Sprintf("panic call=NewReadOnly at=%s msg=%s", pn.At, pn.norm), e.name, w)
			} else {
				e.run.Violation("completeness-store outcome=newreadonly-error when="+when, e.name, w)
			}
			continue
		}
		tc := &tctx{level: "store", ver: ro, nbits: 160, set: vv.set, root: vv.root, desc: desc}
		// what does the read-only view think the root is? (diagnosis only; names the finding)
		roRoot := "unavailable"
		if r, err := ro.Root(); err == nil {
			switch {
			case bytes.Equal(r, vv.root):
				roRoot = "committed-root"
			case bytes.Equal(r, emptyRoot160):
				roRoot = "empty-tree"
			default:
				roRoot = "other"
			}
		}
		e.run.Count("readonly_views_opened", 1)
		e.run.Count("readonly_view_root="+roRoot, 1)
		perm := rng.Perm(len(uni))
		np, na := 0, 0
		for _, i := range perm {
			k := uni[i]
			v, present := vv.set[string(k)]
			if (present && np >= (sp.keysPerVersion+1)/2) || (!present && na >= sp.keysPerVersion/2) {
				continue
			}
			if present {
				np++
			} else {
				na++
			}
			s := subject{key: k, present: present, val: v}
			var proof []*lib.Node
			pn, hung := guarded(func() { proof, err = ro.GetProof(k) })
			e.run.Count("proofs_generated_store", 1)
			base := map[string]any{"level": "store", "key": hex.EncodeToString(k), "key_leaf": tc.leaf(k), "present": present, "value": string(v),
				"committed_root": hex.EncodeToString(vv.root), "readonly_view_root": roRoot, "set": setJ(vv.set, 160), "state": desc}
			switch {
			case hung:
				aborted.Store(true)
				e.run.Inconclusive("watchdog: GetProof did not return (case %s)", e.name)
				return
			case pn != nil:
				base["panic"] = pn
				e.run.Violation(fmt.Sprintf("panic call=Store.GetProof at=%s msg=%s", pn.At, pn.norm), e.name, base)
				continue
			case err != nil:
				base["err"] = err.Error()
				e.run.Violation(fmt.Sprintf("completeness-store outcome=getproof-error ro-root=%s claim=%s when=%s", roRoot, memb(present), when), e.name, base)
				continue
			}
			s.proof = proof
			base["proof"] = proofJ(proof)
			c := s.ownClaim()
			arg := cloneProof(proof)
			var ok bool
			pn, hung = guarded(func() { ok, err = ro.VerifyProof(c.key, c.val, c.member, vv.root, arg) })
			e.run.Count("completeness_checks_store", 1)
			e.run.Count("verifications", 1)
			switch {
			case hung:
				aborted.Store(true)
				e.run.Inconclusive("watchdog: Store.VerifyProof did not return (case %s)", e.name)
				return
			case pn != nil:
				base["panic"] = pn
				e.run.Violation(fmt.Sprintf("panic call=VerifyProof at=%s msg=%s shape=honest-own-claim", pn.At, pn.norm), e.name, base)
			case err != nil:
				base["err"] = err.Error()
				e.run.Violation(fmt.Sprintf("completeness-store outcome=verify-error ro-root=%s claim=%s when=%s", roRoot, memb(present), when), e.name, base)
			case !ok:
				e.run.Violation(fmt.Sprintf("completeness-store outcome=verify-false ro-root=%s claim=%s when=%s", roRoot, memb(present), when), e.name, base)
			default:
				s.honest = true
				e.run.Count("honest_proofs_verified_store", 1)
				e.run.Count(fmt.Sprintf("honest_proofs_verified claim=%s proof0=%s", memb(present), proof0Kind(proof, 160)), 1)
			}
			all = append(all, got{s, vi})
		}
		if vi == len(vers)-1 {
			lastRO = ro
		} else {
			defer ro.(*store.Store).Discard()
		}
	}
	if lastRO == nil {
		e.run.Eval(1)
		return
	}
	defer lastRO.(*store.Store).Discard()
	last := vers[len(vers)-1]
	tc := &tctx{level: "store", ver: lastRO, nbits: 160, set: last.set, root: last.root,
		desc: map[string]any{"built": "store.Store Set/Delete/Commit", "history": hist, "version": last.v, "set_size": len(last.set)}}
	// whatever the store handed out (verifying or not) must not prove a false claim against the committed root
	n := 0
	for _, g := range all {
		if g.ver == len(vers)-1 {
			if n < sp.advSubjects {
				e.adversarial(tc, rng, g.s, uni, sp.sz)
				n++
			}
		} else {
			e.otherVersion(tc, g.s, vers[g.ver].set)
		}
	}
	// honest proofs for the committed root obtained from a tree over the same set (hook), verified through the Store API
	tree, _, st2 := newTree(t, 160)
	defer st2.Close()
	if err := store.VerifSMTCommit(tree, last.set, nil, rng.Intn(2) == 0); err != nil {
		t.Fatalf("smt commit: %v", err)
	}
	if bytes.Equal(tree.Root(), last.root) {
		e.run.Count("store_root_equals_root_of_hook_tree_over_same_set", 1)
		perm := rng.Perm(len(uni))
		for i := 0; i < sp.advSubjects && i < len(perm); i++ {
			k := uni[perm[i]]
			v, present := last.set[string(k)]
			var proof []*lib.Node
			if pn, _ := guarded(func() { proof, _ = tree.GetMerkleProof(k) }); pn != nil || proof == nil {
				continue
			}
			s := subject{key: k, present: present, val: v, proof: proof}
			if e.verify(tc, proof, s.ownClaim(), "honest-own-claim-proof-from-hook-tree", "") {
				e.run.Count("store_verifier_accepts_honest_proof_for_committed_root", 1)
			}
			e.adversarial(tc, rng, s, uni, sp.sz)
		}
	} else {
		e.run.Count("store_root_differs_from_hook_tree_root(C08's concern)", 1)
	}
	e.run.Eval(1)
	if len(last.set) >= 2 {
		e.run.Distinct(fmt.Sprintf("store/%x/%d/%d", last.root[:8], len(last.set), len(vers)))
	}
	if rng.Intn(5) == 0 {
		e.run.Sample(map[string]any{"case": e.name, "level": "store", "universe": len(uni), "versions": len(vers), "final_set": len(last.set), "history": hist})
	}
}

// liveStoreProbe records (as an observation, not a verdict) what GetProof does on the writable store: the
// code documents that proofs must be read through NewReadOnly().
func liveStoreProbe(t *testing.T, run *core.Run) {
	st := newStore(t)
	defer st.Close()
	_ = st.Set(rawKey(1), []byte("v"))
	if _, err := st.Commit(); err != nil {
		t.Fatal(err)
	}
	var err lib.ErrorI
	p, _ := guarded(func() { _, err = st.GetProof(rawKey(1)) })
	switch {
	case p != nil:
		run.Extra("observation_GetProof_on_writable_store_after_Commit", "panics: "+p.Msg+" at "+p.Where+" (documented: use NewReadOnly; not judged)")
	case err != nil:
		run.Extra("observation_GetProof_on_writable_store_after_Commit", "error: "+err.Error())
	default:
		run.Extra("observation_GetProof_on_writable_store_after_Commit", "returns a proof")
	}
}

// ---------- case list (a pure function of seed and tier) ----------

func caseNames() []string {
	var names []string
	for i := 0; i < core.Pick(18, 160); i++ {
		names = append(names, fmt.Sprintf("tiny/%04d", i))
	}
	for i := 0; i < core.Pick(14, 320); i++ {
		names = append(names, fmt.Sprintf("smt/%04d", i))
	}
	for i := 0; i < core.Pick(8, 100); i++ {
		names = append(names, fmt.Sprintf("store/%04d", i))
	}
	return names
}

func runCase(t *testing.T, out sink, p *pool, name string) {
	rng := core.NewRand(core.Seed(), "C16/"+name)
	e := &env{run: out, name: name}
	var i int
	switch {
	case strings.HasPrefix(name, "tiny/"):
		// 1..6 candidate keys, every key a subject, every other key claimed: minimal witnesses come from here
		fmt.Sscanf(name, "tiny/%d", &i)
		sz := sizes{crossKeys: 8, families: core.Pick(10, 20), flips: core.Pick(4, 8)}
		if i%3 == 2 {
			e.storeCase(t, p, rng, storeParams{uniSize: 2 + i%4, blocks: 2, keysPerVersion: 4, advSubjects: 1, sz: sz})
			return
		}
		nb := 160
		if i%6 == 1 {
			nb = 8
		}
		e.smtCase(t, p, rng, smtParams{nbits: nb, uniSize: 2 + i%5, rounds: 1 + i%2, subjectsPerRound: core.Pick(3, 6), sz: sz})
	case strings.HasPrefix(name, "smt/"):
		nbits := []int{160, 160, 160, 8, 12, 16}[rng.Intn(6)]
		e.smtCase(t, p, rng, smtParams{nbits: nbits, uniSize: 12 + rng.Intn(100), rounds: 2 + rng.Intn(3), subjectsPerRound: core.Pick(2, 3),
			sz: sizes{crossKeys: core.Pick(14, 30), families: core.Pick(12, 25), flips: core.Pick(6, 12)}})
	case strings.HasPrefix(name, "store/"):
		e.storeCase(t, p, rng, storeParams{uniSize: 10 + rng.Intn(70), blocks: 3 + rng.Intn(3), keysPerVersion: core.Pick(4, 8), advSubjects: core.Pick(1, 2),
			sz: sizes{crossKeys: core.Pick(12, 24), families: core.Pick(10, 25), flips: core.Pick(4, 12)}})
	}
}

// ---------- child processes ----------
//
// SMT.VerifyProof opens an in-memory pebble instance per call and never closes it (measured: +19 goroutines
// and ~0.26 MB per call), so verifications are farmed out to short-lived child processes with a bounded number
// of cases each. A child records what its cases reported; the parent replays the records into its core.Run.

type violRec struct {
	Sig     string `json:"sig"`
	Case    string `json:"case"`
	Witness any    `json:"witness"`
	N       int    `json:"n"`
}

type recorder struct {
	Counters map[string]int64 `json:"counters"`
	Evals    int              `json:"evals"`
	Dist     []string         `json:"distinct"`
	Samples  []any            `json:"samples"`
	Inconcl  []string         `json:"inconclusive"`
	Viols    []*violRec       `json:"violations"`
	Done     []string         `json:"cases_done"`
	bySig    map[string]*violRec
}

func newRecorder() *recorder {
	return &recorder{Counters: map[string]int64{}, bySig: map[string]*violRec{}}
}

func (r *recorder) Count(name string, n int64) { r.Counters[name] += n }
func (r *recorder) Eval(n int)                 { r.Evals += n }
func (r *recorder) Distinct(k string)          { r.Dist = append(r.Dist, k) }
func (r *recorder) Sample(v any) {
	if len(r.Samples) < 2 {
		r.Samples = append(r.Samples, v)
	}
}
func (r *recorder) Inconclusive(f string, a ...any) {
	r.Inconcl = append(r.Inconcl, fmt.Sprintf(f, a...))
}
func (r *recorder) Violation(sig, caseName string, w any) bool {
	if v, ok := r.bySig[sig]; ok {
		v.N++
		return false
	}
	v := &violRec{Sig: sig, Case: caseName, Witness: w, N: 1}
	r.bySig[sig] = v
	r.Viols = append(r.Viols, v)
	return false
}

// TestChild runs the cases named in VERIF_C16_CASES and writes the record to VERIF_C16_OUT.
func TestChild(t *testing.T) {
	out := os.Getenv("VERIF_C16_OUT")
	if out == "" {
		t.Skip("helper for TestCheck")
	}
	lastCallPath = out + ".lastcall"
	rec := newRecorder()
	p := buildPool(core.NewRand(core.Seed(), "C16/pool"), poolSize())
	prog, _ := os.OpenFile(out+".progress", os.O_CREATE|os.O_WRONLY|os.O_APPEND, 0o644)
	for _, name := range strings.Split(os.Getenv("VERIF_C16_CASES"), ",") {
		if name == "" || aborted.Load() {
			continue
		}
		fmt.Fprintln(prog, name)
		runCase(t, rec, p, name)
		rec.Done = append(rec.Done, name)
	}
	// measured, not judged: what the verifier leaves behind (it never closes the in-memory store it opens)
	rec.Count("goroutines_alive_at_child_exit", int64(runtime.NumGoroutine()))
	bz, err := json.Marshal(rec)
	if err != nil {
		t.Fatalf("marshal record: %v", err)
	}
	if err := os.WriteFile(out, bz, 0o644); err != nil {
		t.Fatal(err)
	}
	if aborted.Load() {
		os.Exit(0) // a call is still spinning on another goroutine; the record is written
	}
}

func poolSize() int { return core.Pick(1<<16, 1<<18) }

type childResult struct {
	rec    *recorder
	cases  []string
	failed string // non-empty: the child ended without a record
	stderr string
	last   string
	began  []string
}

func runChild(dir string, idx int, cases []string, timeout time.Duration) childResult {
	res := childResult{cases: cases}
	out := filepath.Join(dir, fmt.Sprintf("child-%d.json", idx))
	ctx, cancel := context.WithTimeout(context.Background(), timeout)
	defer cancel()
	cmd := exec.CommandContext(ctx, os.Args[0], "-test.run", "^TestChild$", "-test.count=1", "-test.timeout=0")
	cmd.Env = append(os.Environ(), "VERIF_C16_OUT="+out, "VERIF_C16_CASES="+strings.Join(cases, ","))
	errFile, _ := os.Create(out + ".stderr")
	cmd.Stdout, cmd.Stderr = nil, errFile // stdout: canopy's per-verification pebble log lines, discarded
	runErr := cmd.Run()
	errFile.Close()
	if bz, err := os.ReadFile(out); err == nil {
		rec := newRecorder()
		if json.Unmarshal(bz, rec) == nil {
			res.rec = rec
			return res
		}
	}
	res.failed = fmt.Sprint(runErr)
	if ctx.Err() != nil {
		res.failed = "watchdog: child exceeded " + timeout.String()
	}
	if bz, err := os.ReadFile(out + ".stderr"); err == nil {
		if len(bz) > 6000 {
			bz = bz[:6000]
		}
		res.stderr = string(bz)
	}
	if bz, err := os.ReadFile(out + ".lastcall"); err == nil {
		res.last = string(bz)
	}
	if bz, err := os.ReadFile(out + ".progress"); err == nil {
		res.began = strings.Fields(string(bz))
	}
	return res
}

func TestCheck(t *testing.T) {
	run := core.Start(t, "C16", "exploration",
		"seeded key/value sets (160-bit trees over keys whose hashes share long prefixes / sit next to sub-tree borders, and dense 8..16-bit "+
			"trees through the verif hook; several versions through the real Store). Every honest proof is checked for completeness against the "+
			"committed root, then presented — as generated and in ~50 malformed shapes — with claims about its own key, its nearest hash "+
			"neighbours and other keys (membership with real / foreign / junk value, non-membership); a verdict `true` is compared with the set. "+
			"distinct_nontrivial = distinct (level, key bits, root, set size) states with >=2 keys on which the full claim list was evaluated")
	defer run.Finish()
	run.MinDistinct = 10
	run.Assume("SHA-256 is collision free (two different values / keys never share a hash); ground truth is the harness's own key/value map")
	run.Assume("proof nodes handed to VerifyProof are deep copies with exact capacity (as a protobuf decoder produces)")
	run.Assume("a watchdog (120 s per call, 20/120 min per child process) only ever yields INCONCLUSIVE")
	if run.Want("live-store-probe") {
		liveStoreProbe(t, run)
	}
	var names []string
	for _, n := range caseNames() {
		if run.Want(n) {
			names = append(names, n)
		}
	}
	order := map[string]int{}
	for i, n := range caseNames() {
		order[n] = i
	}
	dir, err := os.MkdirTemp("", "verif-c16-")
	if err != nil {
		t.Fatal(err)
	}
	defer os.RemoveAll(dir)
	// stripe the cases over children: at most perChild cases each (bounds the leak), at least Workers() children
	perChild := core.Pick(3, 4)
	nChild := (len(names) + perChild - 1) / perChild
	if nChild < core.Workers() && len(names) > 0 {
		nChild = min(core.Workers(), len(names))
	}
	chunks := make([][]string, nChild)
	for i, n := range names {
		chunks[i%nChild] = append(chunks[i%nChild], n)
	}
	results := make([]childResult, nChild)
	timeout := time.Duration(core.Pick(20, 120)) * time.Minute
	core.Parallel(nChild, func(j int) { results[j] = runChild(dir, j, chunks[j], timeout) })

	var viols []*violRec
	for j, res := range results {
		if res.rec == nil {
			began := "none"
			if len(res.began) > 0 {
				began = res.began[len(res.began)-1]
			}
			w := map[string]any{"child": j, "cases": res.cases, "case_running": began, "exit": res.failed, "stderr_head": res.stderr, "last_call_input": res.last}
			if (strings.Contains(res.stderr, "panic:") || strings.Contains(res.stderr, "fatal error:")) && strings.Contains(res.stderr, "github.com/canopy-network/canopy/") {
				run.Violation("crash child process died inside canopy code", began, w)
			} else {
				run.Inconclusive("child %d (%v) ended without a record: %s", j, res.cases, res.failed)
				run.Sample(w)
			}
			continue
		}
		run.Count("child_processes", 1)
		for k, v := range res.rec.Counters {
			run.Count(k, v)
		}
		run.Eval(res.rec.Evals)
		for _, d := range res.rec.Dist {
			run.Distinct(d)
		}
		for _, s := range res.rec.Samples {
			run.Sample(s)
		}
		for _, s := range res.rec.Inconcl {
			run.Inconclusive("%s", s)
		}
		if len(res.rec.Done) != len(res.cases) {
			run.Inconclusive("child %d finished %d of %d cases", j, len(res.rec.Done), len(res.cases))
		}
		viols = append(viols, res.rec.Viols...)
	}
	// smallest case first, so that the witness written for a signature is a minimal one
	sort.SliceStable(viols, func(a, b int) bool { return order[viols[a].Case] < order[viols[b].Case] })
	for _, v := range viols {
		for i := 0; i < v.N && i < 100000; i++ {
			run.Violation(v.Sig, v.Case, v.Witness)
		}
	}
}
