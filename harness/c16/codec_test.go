package c16

// Harness-side reading of canopy's node-key byte format (written from the format comment above
// `type key struct` in store/smt.go; shares no code with it) and the structural classification of a
// claimed key relative to a presented proof. None of this decides a verdict: the soundness oracle is the
// key/value set alone. The classification only names *which* false claim was accepted (signature) and
// feeds coverage counters.

import (
	"crypto/sha256"
	"math/bits"
	"strings"

	"github.com/canopy-network/canopy/lib"
	"verif/refs"
)

// decodeKey turns an encoded node key into its bit string ("0101…"); ok=false for encodings the format
// does not produce (fewer than 2 bytes, meta byte > 7, meta + significant bits of the last data byte > 8).
func decodeKey(enc []byte) (string, bool) {
	if len(enc) < 2 {
		return "", false
	}
	meta := int(enc[len(enc)-1])
	data := enc[:len(enc)-1]
	last := data[len(data)-1]
	bl := bits.Len8(last)
	if bl == 0 {
		bl = 1
	}
	if meta > 7 || meta+bl > 8 {
		return "", false
	}
	var sb strings.Builder
	for _, b := range data[:len(data)-1] {
		for i := 7; i >= 0; i-- {
			sb.WriteByte('0' + (b>>uint(i))&1)
		}
	}
	n := meta + bl
	for i := n - 1; i >= 0; i-- {
		sb.WriteByte('0' + (last>>uint(i))&1)
	}
	return sb.String(), true
}

// encodeBits is the inverse of decodeKey (via the independent encoder of the canonical-root reference).
func encodeBits(s string) []byte {
	b := make([]byte, (len(s)+7)/8)
	for i := 0; i < len(s); i++ {
		if s[i] == '1' {
			b[i/8] |= 0x80 >> uint(i%8)
		}
	}
	return refs.BitKey{B: b, N: len(s)}.Encode()
}

func bitString(k refs.BitKey) string {
	var sb strings.Builder
	for i := 0; i < k.N; i++ {
		sb.WriteByte('0' + byte(k.Bit(i)))
	}
	return sb.String()
}

func commonPrefixLen(a, b string) int {
	n := min(len(a), len(b))
	for i := 0; i < n; i++ {
		if a[i] != b[i] {
			return i
		}
	}
	return n
}

// pathKeys returns the bit strings of the nodes on the proof's path, bottom up: n0 = proof[0], n_i = the
// common prefix of n_{i-1} and sibling i; plus the sibling bit strings. ok=false if any key is unparseable.
func pathKeys(proof []*lib.Node) (path, sibs []string, ok bool) {
	if len(proof) == 0 || proof[0] == nil {
		return nil, nil, false
	}
	n0, ok := decodeKey(proof[0].Key)
	if !ok {
		return nil, nil, false
	}
	path = append(path, n0)
	sibs = append(sibs, "")
	for i := 1; i < len(proof); i++ {
		if proof[i] == nil {
			return nil, nil, false
		}
		s, ok := decodeKey(proof[i].Key)
		if !ok {
			return nil, nil, false
		}
		sibs = append(sibs, s)
		path = append(path, path[i-1][:commonPrefixLen(path[i-1], s)])
	}
	return path, sibs, true
}

// relation says where the walk from the top of the presented proof towards leaf t leaves the proof's path.
func relation(proof []*lib.Node, t string) string {
	path, sibs, ok := pathKeys(proof)
	if !ok {
		return "unparseable"
	}
	// deepest path node that is a prefix of t
	d := -1
	for i := 0; i < len(path); i++ {
		if strings.HasPrefix(t, path[i]) {
			d = i
			break
		}
	}
	switch {
	case d < 0:
		return "off-path" // the top of the path is not the empty prefix (truncated proof)
	case d == 0 && path[0] == t:
		return "at-proof0"
	case d == 0:
		return "under-proof0"
	}
	p := path[d]
	if len(t) <= len(p) {
		return "shorter-than-path"
	}
	b := t[len(p)]
	child, sib := path[d-1], sibs[d]
	childOn := len(child) > len(p) && child[len(p)] == b
	sibOn := len(sib) > len(p) && sib[len(p)] == b
	switch {
	case sibOn && sib == t:
		return "equals-sibling"
	case sibOn && strings.HasPrefix(t, sib):
		return "under-sibling"
	case sibOn:
		return "diverges-at-sibling"
	case childOn && d-1 == 0:
		return "diverges-at-proof0"
	case childOn:
		return "diverges-at-path-node"
	}
	return "no-child-on-that-side"
}

// parentOf computes the (key, value) of the parent of proof[0] and proof[1] the way the format defines it.
func parentOf(proof []*lib.Node) (*lib.Node, bool) {
	if len(proof) < 2 {
		return nil, false
	}
	a, ok1 := decodeKey(proof[0].Key)
	b, ok2 := decodeKey(proof[1].Key)
	if !ok1 || !ok2 {
		return nil, false
	}
	h := sha256.New()
	if proof[1].Bitmask == 0 { // sibling on the left
		h.Write(proof[1].Key)
		h.Write(proof[1].Value)
		h.Write(proof[0].Key)
		h.Write(proof[0].Value)
	} else {
		h.Write(proof[0].Key)
		h.Write(proof[0].Value)
		h.Write(proof[1].Key)
		h.Write(proof[1].Value)
	}
	return &lib.Node{Key: encodeBits(a[:commonPrefixLen(a, b)]), Value: h.Sum(nil)}, true
}

// chainOK recomputes the hash chain of the presented proof the way the format defines it (sibling with
// bitmask 0 on the left, anything else on the right) and says whether it ends in root. A verdict `true`
// for a proof whose chain is broken means the root comparison itself was defeated.
func chainOK(proof []*lib.Node, root []byte) bool {
	if len(proof) < 2 || proof[0] == nil {
		return false
	}
	curK, curV := proof[0].Key, proof[0].Value
	for i := 1; i < len(proof); i++ {
		if proof[i] == nil {
			return false
		}
		h := sha256.New()
		if proof[i].Bitmask == 0 {
			h.Write(proof[i].Key)
			h.Write(proof[i].Value)
			h.Write(curK)
			h.Write(curV)
		} else {
			h.Write(curK)
			h.Write(curV)
			h.Write(proof[i].Key)
			h.Write(proof[i].Value)
		}
		a, ok1 := decodeKey(curK)
		b, ok2 := decodeKey(proof[i].Key)
		if !ok1 || !ok2 {
			return false
		}
		curK, curV = encodeBits(a[:commonPrefixLen(a, b)]), h.Sum(nil)
		if len(a[:commonPrefixLen(a, b)]) == 0 {
			curK = nil // the verifier's own root key is the empty byte string
		}
	}
	return string(curV) == string(root)
}
