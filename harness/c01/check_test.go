package c01

// C01 — BFT agreement. Monitor: commit events of honest replicas (the checks controller.HandlePeerBlock makes,
// applied to the certificate each real bft.BFT instance hands to SelfSendBlock/receives by gossip); per height
// a single (blockHash, resultsHash). Workload: virtual-time simulations of 4..7 real BFT instances against an
// adversary that owns the network, the root-height updates and < 1/3 of the voting power.

import (
	"fmt"
	"testing"

	"verif/bftsim"
	"verif/core"
)

func TestCheck(t *testing.T) {
	run := core.Start(t, "C01", "exploration",
		"each case = (scenario, committee/stake vector, Byzantine subset < 1/3, PRNG schedule) executed on real bft.BFT instances in virtual time; "+
			"distinct_nontrivial = distinct executed schedules (hash over the ordered event trace) among runs in which at least one honest commit happened "+
			"and (a round change and a lock occurred, or the adversary injected Byzantine messages)")
	defer run.Finish()
	run.MinDistinct = 20
	run.Assume("BLS signatures and SHA-256 are secure; the lite controller stands in for FSM validation (blocks are valid lib.Block values, validity = parent hash + payload tag); committee identical at every root height (committee-preserving updates)")
	coms := bftsim.Committees()
	perScenario := map[string]int{
		"split": core.Pick(30, 4000), "hidden-lock": core.Pick(30, 4000), "commit-withheld": core.Pick(25, 3000),
		"lock-replay-reset": core.Pick(40, 3000), "replay": core.Pick(25, 3000), "random": core.Pick(40, 5000), "crash": core.Pick(8, 500), "benign": core.Pick(6, 200),
	}
	type job struct {
		name, scen string
		com        bftsim.Committee
		seed       int64
	}
	var jobs []job
	for _, sc := range bftsim.ScenarioNames {
		for i := 0; i < perScenario[sc]; i++ {
			name := fmt.Sprintf("%s/%d", sc, i)
			rng := run.Rand(name)
			jobs = append(jobs, job{name, sc, coms[rng.Intn(len(coms))], rng.Int63()})
		}
	}
	core.Parallel(len(jobs), func(j int) {
		jb := jobs[j]
		if !run.Want(jb.name) {
			return
		}
		c := bftsim.BuildCase(jb.name, jb.scen, jb.com, jb.seed)
		replay := run.Want(jb.name) && len(jobs) > 0 && coreReplay()
		s := c.Run(replay)
		run.Eval(1)
		st := s.Stats
		run.Count("heights_decided", int64(st.HeightsDecided))
		run.Count("honest_commits_observed", int64(st.CommitsSeen))
		run.Count("locks_observed", int64(st.Locks))
		run.Count("round_interrupts", int64(st.RoundInterrupts))
		run.Count("root_height_resets", int64(st.RootBumps))
		run.Count("messages_delivered", int64(st.Delivered))
		run.Count("messages_dropped", int64(st.Dropped))
		run.Count("byzantine_messages_injected", int64(st.ByzInjected))
		run.Count("stale_justifications_presented", int64(c.Adv.Acts["stale-justification"]))
		run.Count("byzantine_leaderships", int64(c.Adv.Acts["byz-lead-split"]+c.Adv.Acts["byz-lead-stale"]+c.Adv.Acts["byz-lead-forged"]+c.Adv.Acts["byz-lead-partial"]+
			c.Adv.Acts["byz-lead-withhold"]+c.Adv.Acts["byz-lead-fakeqc"]+c.Adv.Acts["byz-lead-wrongphase"]+c.Adv.Acts["byz-lead-replayqc"]+c.Adv.Acts["byz-lead-honest"]+c.Adv.Acts["byz-lead-mismatch"]))
		run.Count("mismatched_justifications_presented", int64(c.Adv.Acts["mismatched-justification-0"]+c.Adv.Acts["mismatched-justification-1"]+c.Adv.Acts["mismatched-justification-2"]))
		run.Count("aux_alarms_one_vote_per_view", int64(len(s.AuxAlarms)))
		run.Count("fabricated_certificates_presented", int64(c.Adv.Acts["byz-fake-certificate"]))
		run.Count("forged_highqc_presented", int64(c.Adv.Acts["byz-lead-forged"]))
		if st.CommitsSeen > 0 && ((st.RoundInterrupts > 0 && st.Locks > 0) || st.ByzInjected > 0) {
			run.Distinct(s.TraceHash())
		}
		if len(s.Violations) > 0 {
			// re-run with the trace on to produce a readable witness
			c2 := bftsim.BuildCase(jb.name, jb.scen, jb.com, jb.seed)
			s2 := c2.Run(true)
			log := s2.Log
			if len(log) > 400 {
				log = log[len(log)-400:]
			}
			kind := "fork scenario=" + jb.scen
			run.Violation(kind, "^"+jb.name+"$", map[string]any{"case": c.Describe(s), "violations": s.Violations, "commits": s.Commits, "trace_tail": log})
		}
		if j%97 == 0 {
			run.Sample(c.Describe(s))
		}
	})
}

func coreReplay() bool { return false }
