#!/usr/bin/env bash
# usage: mutate.sh <file-in-repo> <old> <new> <check id> [tier]   — applies a one-off textual mutant to /repo, runs a check, restores
f="$1"; old="$2"; new="$3"; id="$4"; tier="${5:-quick}"
cd /repo || exit 9
python3 - "$f" "$old" "$new" <<'PY' || { echo "MUTATE: pattern not found"; exit 9; }
import sys
p,a,b=sys.argv[1:4]
s=open(p).read()
if a not in s: sys.exit(1)
open(p,'w').write(s.replace(a,b,1))
PY
out=$(cd /verif && VERIF_ROOT=/tmp/verif-mut ./check "$id" "$tier" 2>&1); rc=$?
git -C /repo checkout -- "$f"
echo "$out" | grep -E "^(VIOLATION|ERROR|INCONCLUSIVE|VERDICT|KNOWN|  signature)" | head -8
echo "exit=$rc"
