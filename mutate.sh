#!/usr/bin/env bash
# usage: mutate.sh <file-in-repo> <old> <new> <check id> [tier]
# applies a one-off textual mutant to a scratch worktree of /repo (never /repo itself), runs a check against it, reports
f="$1"; old="$2"; new="$3"; id="$4"; tier="${5:-quick}"
W=/tmp/mut-repo
if [ ! -d "$W" ]; then git -C /repo worktree add -q --detach "$W" HEAD || exit 9; fi
git -C "$W" checkout -q --detach "$(git -C /repo rev-parse HEAD)" && git -C "$W" checkout -q -- . || exit 9
cd "$W" || exit 9
python3 - "$f" "$old" "$new" <<'PY' || { echo "MUTATE: pattern not found"; exit 9; }
import sys
p,a,b=sys.argv[1:4]
s=open(p).read()
if a not in s: sys.exit(1)
open(p,'w').write(s.replace(a,b,1))
PY
mkdir -p /tmp/verif-mut; cp /verif/known_findings.json /tmp/verif-mut/
out=$(cd /verif && VERIF_REPO="$W" VERIF_ROOT=/tmp/verif-mut VERIF_BIN=/tmp/verif-mut/bin ./check "$id" "$tier" 2>&1); rc=$?
git -C "$W" checkout -q -- .
echo "$out" | grep -E "^(VIOLATION|ERROR|INCONCLUSIVE|VERDICT|KNOWN|  signature)" | head -6
echo "exit=$rc"
