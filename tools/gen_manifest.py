#!/usr/bin/env python3
"""Regenerates /verif/MANIFEST.json from the table below and validates it against the schema.
A property is *claimed* only if harness/cNN exists and it has an entry in CHECKS; everything else is
listed under not_applicable with the reason it is not claimed (yet)."""
import json, os, sys

ROOT = os.path.dirname(os.path.dirname(os.path.abspath(__file__)))

CHECKS = {
    "C01": dict(
        engine="E-BFT",
        category="exploration",
        technique="runtime monitor over commit events of real bft.BFT replicas in a virtual-time simulator with a network/Byzantine adversary (scripted hostile scenarios + seeded schedules)",
        text="4..7 real bft.BFT instances are stepped by an external scheduler that owns time, the network and root-height updates; an adversary holding "
             "< 1/3 of the power equivocates, withholds, replays old certificates, forges justifications and fabricates certificates while PRECOMMIT/COMMIT "
             "messages are selectively hidden. The monitor is the per-height single-value check over what honest replicas commit (with the certificate "
             "checks controller.HandlePeerBlock makes). Schedules are sampled; the scripted scenarios are the ones derived from the locking/unlocking rules.",
        design_ref="DESIGN.md §2 C01, §3 F1",
        note="Trusted: BLS/SHA-256; lite controller stands in for FSM block validation; committee identical at every root height; NEW_COMMITTEE resets follow the root-height visibility within 3 virtual ms, in order.",
    ),
    "C02": dict(
        engine="E-NODE",
        category="fault_enumeration",
        technique="runtime monitor: store.Version() and result of the real controller.HandlePeerBlock for every deviation of an honest (block, certificate) pair, judged against an independent kyber-level reference validator",
        text="A full node built from canopy's constructors commits 3 honestly certified blocks, then is offered ~50 classes of deviated certificates for its next height "
             "(signer subsets at threshold-1 / threshold, padded and resized bitmaps, foreign and grafted signatures, every header field changed without re-signing / re-signed "
             "by a minority / by everybody, block and results binding, wrong-phase and previous-height certificates, old-committee bitmaps). No invalid one may advance the store; "
             "a valid variant must still commit afterwards.",
        design_ref="DESIGN.md §2 C02",
        note="Trusted: BLS (kyber bdn), SHA-256. Reference validator judges binding + signature + power, not block execution. Fast-sync path only at checkpoint heights (exempt by the property).",
    ),
    "C03": dict(
        engine="E-NODE",
        category="exploration",
        technique="differential runtime monitor: the same block executed on every path (propose, validate x2, validate after a discarded competing proposal, commit cached, commit replay, commit after restart, sync replay) on 3+1 full nodes with byte comparison of indexed blocks and full state dumps",
        text="Seeded chains of generated transactions (failing, duplicate and oversize ones present on the proposer path) on three full nodes plus a late joiner; every node validates every "
             "proposal (acceptance implies header-hash and certificate-result equality), commits by cached result or replay, one node is restarted from its file system, and a fresh node replays "
             "the chain; after every block the indexed block bytes (header, tx results, events) and the full state dump are compared across nodes. GOMAXPROCS 1/2/16 and jittered SMT worker order.",
        design_ref="DESIGN.md §2 C03",
        note="Process-wide caches are purged when control passes between nodes of one test binary (real nodes do not share a process). Nondeterminism needing another machine is out of reach.",
    ),
    "C04": dict(
        engine="E-NODE",
        category="exploration",
        technique="runtime invariant monitor: raw big.Int sums of all accounts, pools and stakes vs the recorded total after every block, and creation/destruction bounds from an independent mint re-derivation and slash events",
        text="Seeded full-node chains (sends at 0/1/exact/over balance/near 2^64, tiny and large stakes, subsidies, approved DAO transfers with/without mint, parameter changes, non-sign slashes up "
             "to 100%, halvening every 7/20 blocks, 3-unit mints). After each block: recorded total == sum of holdings; delta(total) <= scheduled mint + DAO mints, and the destroyed amount is "
             "bounded by slash events plus the reward pools.",
        design_ref="DESIGN.md §2 C04",
        note="The undistributed-reward burn is bounded, not recomputed exactly. DEX/escrow flows belong to C20; plugins and the faucet are not configured.",
    ),
    "C05": dict(
        engine="E-NODE",
        category="exploration",
        technique="runtime non-interference monitor: raw full-state diff of every block against a reference authorisation oracle written from the property text, for candidate transactions of every message type x key type x (signer, claimed owner) relation x tampering, through CheckTx alone, block with batch verification, signature-cache second pass and batch-failure fallback",
        text="Per case ~1500 distinct (message type, key kind, relation, tamper) candidates: honest transactions and copies with every signed field mutated after signing, lifted signatures, pre-filled signer "
             "fields, replaced keys, address-prefix twins, k-of-n BLS multisig at / below threshold with claimed bitmaps, RLP and RLP.V2 wrappers whose inner transaction differs. Each goes (a) through "
             "CheckTx alone, (b) into a block with good neighbours, (c) twice (signature cache), (d) next to a bad signature (batch fallback). Unauthorised candidates must leave no diff; authorised ones "
             "may only change what the entitlement ledger allows; a block spliced with an unauthorised transaction must be rejected by the replica.",
        design_ref="DESIGN.md §2 C05",
        note="Signature schemes and address derivation trusted. Buyer-side lock/close memos of a nested chain and liquidity-withdraw effects are exercised by C20, not here.",
    ),
    "C09": dict(
        engine="E-NODE",
        category="fault_enumeration",
        technique="fault enumeration at file-system operation boundaries: crash images (pebble CrashClone with 0 / 50 / 100 % unsynced data) taken after numbered FS operations and at commit hook points of a real node, each re-opened through the real store/fsm/controller path and compared with the recorded tuple of the surviving version; plus SIGKILL of an on-disk node",
        text="A full node runs 6-12 blocks on a counting wrapper around pebble's crashable in-memory FS (small memtables: WAL rotation, flushes, compactions and manifest writes fall in the window). "
             "For every image: the store must open at a version that had been handed to pebble; commit ids, Root(), full state dump, every historical view, block / certificate / tx / event indexes for "
             "all heights, absence of anything newer, and the raw per-component content must equal what the uncrashed node recorded for that version; then the next two recorded blocks must apply. "
             "A second mode SIGKILLs a child process running the node on the real disk FS at a chosen operation.",
        design_ref="DESIGN.md §2 C09",
        note="pebble's own recovery and the CrashClone crash model (4 kB blocks, unsynced directory entries) are trusted; the NewStore option literal is duplicated in VerifNewStoreOnFS; which committed height survives is unconstrained (commits use NoSync).",
    ),
    "C20": dict(
        engine="E-NODE",
        category="exploration",
        technique="runtime invariant + transition monitor over raw state scans and canopy's own DEX event trace after every block of two wired canopy chains (root + nested) and a harness-signed third committee; exactly-once ledger of order executions and settlements across chains",
        text="Generated create / edit / delete / lock / close order transactions, DEX limit orders, deposits and withdrawals over reserves from 1 to 2^62, batch rotations, liveness fallbacks, duplicate and "
             "conflicting instructions in one certificate. After every block: escrow pool = sum of open orders; holding pool = pending orders + deposits; LP points sum = total; supply identity; every "
             "account delta explained by included transactions, order-book differences and DEX payouts; per swap dy <= y and (x+dx)(y-dy) >= xy in big.Int; withdrawals <= share; an order executed and "
             "settled at most once across chains.",
        design_ref="DESIGN.md §2 C20",
        note="lib.LivenessFallbackBlocks / TriggerModuloBlocks are lowered (12 / 2) so fallbacks occur inside short runs. Committee 3 is harness-signed. Validator accounts are exempt from exact attribution (rewards).",
    ),
    "C06": dict(
        engine="E-NODE",
        category="exploration",
        technique="runtime monitor with unique-value tagging: each payment goes to a fresh recipient, so a state scan counts executions; every same-content re-encoding of an included transaction is offered again through the real mempool/proposal/commit path",
        text="Sends from ed25519 / secp256k1 / eth-secp256k1 / BLS keys; after the original is committed, the identical bytes and every variant from the wire-level generator (explicit default "
             "fields, reordered fields, non-minimal varints, duplicated scalars, split embedded messages, alternative key encodings, malleated signatures, controls) are offered alone in later "
             "blocks, batched, and in the same block; plus other-chain / other-network / creation-height-window cases.",
        design_ref="DESIGN.md §2 C06, §3 F2",
        note="RLP / RLP.V2 wrapped transactions and the lower window edge (needs > 4320 blocks) are not generated. Signature schemes are trusted.",
    ),
    "C10": dict(
        engine="E-STORE",
        category="exploration",
        technique="runtime monitor: every read of generated store operation sequences compared online with a versioned-map model; concurrent snapshot reads checked for linearizability with porcupine and run under the race detector",
        text="Sequential phase: set/delete/get/iterate/reverse-iterate/nested txn (flush/discard)/copy/commit/read-at-version/compact/flush/rollback sequences over <= 40 keys with shared "
             "prefixes; every result and every committed version's forward and reverse scan (all four iterator strategies) is compared with the model and re-queried after later commits, "
             "compaction and rollback. Concurrent phase: a writer commits versions with version-unique values while readers take NewReadOnly/Copy views during Commit, compaction and "
             "async MaybeCompact; call/return histories are checked with porcupine and the same workload runs under -race in worker processes.",
        design_ref="DESIGN.md §2 C10",
        note="Keys whose segment tuple is a prefix of another key's are outside the schema canopy's key constructors produce and are only counted. pebble's own recovery/compaction is trusted.",
    ),
    "C13": dict(
        engine="E-NODE",
        category="exploration",
        technique="runtime monitor: committee answers of 4 APIs for every past height compared with a reference derivation from raw validator scans, re-queried after every later block",
        text="Seeded full-node chains with exact stake ties at the cap boundary, caps 1..n+1, delegate caps 0..2 and status churn every block; GetCommitteeMembers, LoadCommittee, "
             "GetDelegates and LoadRootChainInfo for the newest and for sampled/all past heights are compared with filter-sort-cap over a raw scan, including total power and "
             "floor(2T/3)+1 in big.Int, and the first answer for a height must never change (shared validator cache exercised over > 64 heights).",
        design_ref="DESIGN.md §2 C13",
        note="Cap 0 is reachable only for delegates (params reject MaxCommitteeSize 0). Concurrent readers are exercised by C10's race phase at store level, not here.",
    ),
    "C12": dict(
        engine="E-NODE",
        category="exploration",
        technique="runtime invariant monitor over raw state scans after every block of seeded full-node chains; the chain itself (plus a cool-down of empty blocks) is the no-wedge probe",
        text="Two full nodes run seeded chains of stake/edit/pause/unpause/unstake/parameter-change transactions with tiny stakes, non-signing members and slash percentages up to 100; "
             "after every committed block the validator records, unstaking/paused markers and supply tallies are cross-checked from raw scans, and every height up to past the last "
             "deferred action must be producible by the proposer, accepted by the replica and committed.",
        design_ref="DESIGN.md §2 C12, §3 F3",
        note="An anchor validator that never leaves keeps the committee non-empty (a chain whose validators all left cannot certify blocks; that is outside the wedge notion). Double-sign slashes are C14's workload.",
    ),
    "C14": dict(
        engine="E-NODE",
        category="exploration",
        technique="runtime monitor with a signature ledger: every consensus signature made in the run is recorded; forged and genuine double-sign evidence goes through the real ProcessDSE / AddDSE / ProduceProposal / ValidateProposal / FSM execution and every implication and stake change is judged against the ledger",
        text="Seeded full-node chains (protocol versions 1 and 2, governance changing the slash parameters) with two equivocating validator keys; per block ~10 evidence objects from 12 forge "
             "families (genuine, same payload / two bitmaps, cross-view, re-labelled header, bitmap claiming honest signers, grafted honest signature, election-phase pair, other chain, other "
             "committee layout, genuine but expired, replays) plus proposer-claimed slash lists the evidence does not justify; committed slash lists are executed and per-validator stake deltas "
             "are bounded by the listed double signs and the per-committee cap; a (validator, root height) may be listed once.",
        design_ref="DESIGN.md §2 C14",
        note="BLS aggregate signatures trusted. The harness root-chain manager answers IsValidDoubleSigner as cmd/rpc/query.go does. The cap is enforced by canopy from protocol version 2 on and judged only there. Evidence built by a running replica from partial certificates (GetLocalDSE) is not driven.",
    ),
    "C15": dict(
        engine="E-BFT",
        category="exploration",
        technique="runtime monitor of bounded progress: real bft.BFT replicas in virtual time, adversarial prefix then GST; verdict = commit within 4 honest-led, in-phase rounds",
        text="Liveness cannot be decided by a finite run, so it is restated as bounded progress: after an adversarial prefix (locks on different values at different "
             "(root height, round), replicas at different rounds/phases, Byzantine leaders, root-height resets, paused replicas) the network heals; every honest replica must commit "
             "before 4 rounds have elapsed that were honest-led (>= +2/3 of honest power selected the same honest proposer) and in phase (all honest election votes within the "
             "shortest phase wait of the round). Other rounds are counted and reported but do not count against the bound.",
        design_ref="DESIGN.md §2 C15",
        note="Bounded-progress restatement; virtual time only; lagging replicas obtain committed blocks by gossip after GST (the node's block-sync path is outside BFT rounds).",
    ),
    "C16": dict(
        engine="E-STORE",
        category="exploration",
        technique="runtime monitor: completeness of store/SMT proofs against committed roots and soundness/robustness of VerifyProof over adversarial proof lists, ground truth = the key/value map",
        text="Generated states (store level with 160-bit keys over several versions, SMT level with short keys) and for every key the honest proof must verify against the root "
             "committed for that height; an adversarial list (honest proof for another key, wrong value, truncated/extended/reordered, bit-flipped and malformed node keys, proofs of "
             "other versions, inner node as leaf) may be accepted only when the claim is true in the key/value map; a panic is a violation. Runs in child processes.",
        design_ref="DESIGN.md §2 C16, §3 F4",
        note="Trusted: SHA-256 (forgeries needing a collision are out of scope). Proofs are handed to the Go API (no wire decoder exists for them).",
    ),
    "C17": dict(
        engine="E-P2P",
        category="fault_enumeration",
        technique="runtime monitor: byte-stream equality, fault injection at every frame position (bit flips, swap, duplicate, replay, drop, truncate) and active handshake interposer over in-memory pipes against real EncryptedConn",
        text="Real p2p.NewHandshake/EncryptedConn endpoints over a fault-injecting in-memory net.Conn: stream equality for write/read size grids around the frame size; "
             "one or two frame-level faults at every frame index of a conversation (prefix property: nothing is ever delivered that was not written at that position); "
             "scripted active-attacker handshake transcripts judged against which private keys each endpoint really holds.",
        design_ref="DESIGN.md §2 C17",
        note="Trusted: X25519/ChaCha20-Poly1305/ed25519/BLS primitives; in-memory pipes, not kernel TCP; attacker strategies are the scripted families.",
    ),
    "C07": dict(
        engine="E-NODE",
        category="fault_enumeration",
        technique="runtime monitor with fault injection at the block boundary: version / full state dump / last indexed block of a full node compared before and after every proposal or certified block that must be rejected, then differential comparison with a clean twin node",
        text="Two full nodes on one prefix. Node X is offered, at every height, ~12 deviations of the honest proposal (failing transaction inserted, transaction removed / reordered, "
             "state root / total / parent / next-validator-root changed, last certificate payload or signature changed, reward percent / slash recipients / retired flag changed) first through "
             "ValidateProposal (+ResetFSM as RoundInterrupt does) and then as a fully certified peer block; nothing may change. The honest block (built from a mempool where transactions that "
             "fail after fee deduction or inside handlers sit among successful ones on the same 5 accounts) must then be accepted and X must equal the clean node byte for byte.",
        design_ref="DESIGN.md §2 C07",
        note="Failures inside certificate-result transactions of a nested chain are driven by C20's workload. Crash atomicity is C09.",
    ),
    "C11": dict(
        engine="E-NODE",
        category="exploration",
        technique="differential runtime monitor: honest proposals validated by a peer node; archive-served blocks re-validated on two fresh nodes (full certificate checks / sync path) with hash, state-root and state-dump equality",
        text="Seeded chains on two full nodes with alternating proposers; the mempool receives valid, failing, oversize (2.5 kB block limit), duplicate and same-content re-encoded "
             "transactions; every proposal must be accepted by the peer. Afterwards every height is served by LoadCertificate and re-validated on fresh nodes from genesis.",
        design_ref="DESIGN.md §2 C11",
        note="Both nodes are in the same governance mode. Process-wide caches are purged when control passes between nodes of one test binary.",
    ),
    "C18": dict(
        engine="E-P2P",
        category="exploration",
        technique="runtime monitor over recorded send/deliver event logs of real p2p.MultiConn endpoints (exactly-once, whole-message, per-topic order, sender identity) under mesh traffic, hostile raw peers, teardown mid-traffic and full queues; the same workload under the race detector in child processes",
        text="Real P2P/MultiConn endpoints over in-memory pipes: every message carries a unique id; the monitor checks that each delivered message was sent, is delivered whole and at most once, in per-(connection, topic) "
             "order, with the authenticated sender; hostile raw peers send malformed / oversize / undefined-topic / interleaved packets; connections are torn down mid-traffic and queues are filled. "
             "A second build of the same workload runs under -race; report blocks are de-duplicated by the pair of top canopy frames.",
        design_ref="DESIGN.md §2 C18",
        note="In-memory pipes, not kernel TCP. Losses are permitted only where the code documents them (inbox full, send refused). The 256 MB cap is probed but on a loaded machine the heartbeat timeout may end the script first (reported in the evidence).",
    ),
    "C19": dict(
        engine="E-CODEC",
        category="exploration",
        technique="runtime monitors: digest injectivity over generated message pairs (one-field / boundary-shift / swap) against real sign-bytes and hash functions; key-constructor and prefix-range behaviour against real stores; hostile wire inputs to every decoder and first-touch handler in crash-isolated child processes",
        text="(1) For all 16 transaction types, votes, certificates and evidence: pairs differing in one consumed field must differ in sign bytes / hash. (2) Keys from every fsm/store key constructor are "
             "checked for collisions and prefix-range escapes, behaviourally through VersionedStore / Txn / Store / Indexer. (3) ~26k (quick) to 2M (thorough) wire mutations of valid messages go through "
             "lib.Unmarshal, CheckBasic/Check, CheckTx, bft.HandleMessage etc. in child processes; a panic or crash in canopy code is a violation; unknown fields and size caps are probed.",
        design_ref="DESIGN.md §2 C19",
        note="SHA-256 trusted. The list of fields deliberately outside the sign bytes is read from the code and stated in the evidence. p2p receive loop and controller listeners are covered by C18 / node-engine checks, not here.",
    ),
    "C08": dict(
        engine="E-STORE",
        category="exploration",
        technique="runtime monitor: real store/SMT roots compared online with an independent canonical Merkle-root oracle over generated histories; forced worker completion orders via verif hook",
        text="Every commit of thousands of generated write/delete histories (real Store.Root/Commit/Reset/Copy/NewTxn paths with 160-bit keys, and "
             "the SMT with 8..24-bit keys so trees are dense) is compared with a reference root computed from the key/value set alone; equality with "
             "a history-independent injective reference gives purity and collision-freedom on everything observed. Sampled, not exhaustive.",
        design_ref="DESIGN.md §2 C08",
        note="Trusted: SHA-256; the reference shares the documented node-key byte format. Keys equal to reserved tree positions (sentinels, synthetic borders) are excluded in short-key trees because at 160 bits they need a hash pre-image.",
    ),
}

NOT_YET = "check not built yet in this revision (planned, see DESIGN.md §9); not claimed until it has been silent on the unchanged tree at several seeds"


def main():
    props = [json.loads(l) for l in open(os.path.join(ROOT, "properties.jsonl"))]
    checks, na = [], []
    for p in props:
        pid = p["id"]
        c = CHECKS.get(pid)
        if c and os.path.isdir(os.path.join(ROOT, "harness", pid.lower())):
            checks.append({
                "property_id": pid,
                "quick_cmd": f"./check {pid} quick",
                "thorough_cmd": f"./check {pid} thorough",
                "evidence_file": f"/verif/evidence/{pid}.json",
                "replay_cmd_template": f"./check {pid} --replay {{path}}",
                "engine": c["engine"],
                "level_claimed": {"category": c["category"], "text": c["text"], "design_ref": c["design_ref"]},
                "level_note": c["note"],
                "technique": c["technique"],
            })
        else:
            na.append({"property_id": pid, "reason": NA.get(pid, NOT_YET)})
    m = {
        "version": 1,
        "setup_cmd": "./check setup",
        "hooks": {
            "guard": "verif",
            "enable": "go build tag: every check compiles /repo with `go test -tags verif` (harness module replaces github.com/canopy-network/canopy => /repo)",
            "baseline_off_cmd": "cd /repo && for m in . ./plugin/go ./plugin/go/tutorial; do (cd /repo/$m && GOFLAGS=-mod=mod GOPROXY=off go test -json -vet=off -count=1 -timeout 25m ./...); done",
            "source_commits": HOOK_COMMITS,
            "add_only": True,
        },
        "engines": [
            {"name": "E-STORE", "path": "harness/c08 harness/c10 harness/c16 harness/refs", "serves_properties": ["C08", "C10", "C16"],
             "kind_free_text": "real store.Store / Txn / VersionedStore / SMT driven by generated operation sequences, compared online with reference models"},
            {"name": "E-BFT", "path": "harness/bftsim", "serves_properties": ["C01", "C15"],
             "kind_free_text": "virtual-time discrete-event simulator around N real bft.BFT instances with a network adversary and Byzantine actors"},
            {"name": "E-NODE", "path": "harness/node", "serves_properties": ["C02", "C03", "C04", "C05", "C06", "C07", "C09", "C11", "C12", "C13", "C14", "C20"],
             "kind_free_text": "full node from canopy's own constructors (controller+fsm+store) with a harness root-chain manager and chain driver"},
            {"name": "E-P2P", "path": "harness/c17 harness/c18", "serves_properties": ["C17", "C18"],
             "kind_free_text": "real EncryptedConn / MultiConn over in-memory pipes with a fault-injecting interposer; race detector"},
            {"name": "E-CODEC", "path": "harness/c19 harness/c19util", "serves_properties": ["C19"],
             "kind_free_text": "reflection- and wire-level generators feeding canopy's real sign-bytes, key constructors, decoders and first-touch handlers, hostile inputs in crash-isolated child processes"},
        ],
        "checks": checks,
        "not_applicable": na,
        "notes": "Technique family: runtime monitoring and sanitizers. Exit codes of ./check: 0 held, 1 VIOLATION line printed, 2 INCONCLUSIVE, 3 harness error. Known findings: /verif/known_findings.json.",
    }
    out = os.path.join(ROOT, "MANIFEST.json")
    json.dump(m, open(out, "w"), indent=1)
    try:
        import jsonschema
        jsonschema.validate(m, json.load(open("/root/.vp/MANIFEST.schema.json")))
        print("MANIFEST.json valid;", len(checks), "claimed,", len(na), "not claimed")
    except ImportError:
        print("jsonschema not importable here; wrote MANIFEST.json unvalidated")


NA = {}
HOOK_COMMITS = ["bffe7c1", "d8cae5e", "19a33f0", "aa520e8"]
FIX_COMMITS = ["ac69fcc", "f14e602", "7290d0d", "11d5f11", "edf91ea", "ab4ad20", "ff68f31", "db26c33", "683ece4", "876170d", "cff6cea", "c441972", "a61c99a", "3e9c947", "7ee8ccd", "d4a8335", "03140f4", "0f96341", "3687a9b"]

if __name__ == "__main__":
    main()
