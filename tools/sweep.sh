#!/usr/bin/env bash
# usage: sweep.sh <seed> [tier] [ids...] - runs checks one after another, prints one line per check
seed="$1"; tier="${2:-quick}"; shift; shift
ids="$@"; [ -z "$ids" ] && ids=$(python3 -c "import json;print(' '.join(c['property_id'] for c in json.load(open('/verif/MANIFEST.json'))['checks']))")
cd /verif
for c in $ids; do
  t0=$(date +%s)
  out=$(VERIF_SEED=$seed ./check $c $tier 2>&1); rc=$?
  t1=$(date +%s)
  echo "seed=$seed $c $tier exit=$rc $((t1-t0))s $(echo "$out" | grep -E '^(VERDICT|INCONCLUSIVE|ERROR)' | head -1) $(echo "$out" | grep -cE '^VIOLATION') violations $(echo "$out" | grep -cE '^KNOWN-FINDING') known"
  [ $rc -ne 0 ] && echo "$out" | grep -E "^(VIOLATION|  signature|INCONCLUSIVE|ERROR)" | sort | uniq -c | head -8
done
