#!/usr/bin/env bash
# usage: seed_eval.sh <seed id e.g. C03> <check id>... ; saves the seeded change under /verif/seeded/<id>/ (first time) and runs the
# given checks (quick) against the seed's scratch worktree /tmp/seed/<id> (never against /repo while builders are using it)
id="$1"; shift
W=${SEED_ROOT:-/tmp/seed}/$id; D=/verif/seeded/$id${SEED_SUFFIX:-}
mkdir -p "$D"
if [ ! -s "$D/patch.diff" ]; then
  git -C "$W" diff > "$D/patch.diff"
  [ -d ${SEED_ROOT:-/tmp/seed}/$id-demo ] && { rm -rf "$D/demo"; cp -r ${SEED_ROOT:-/tmp/seed}/$id-demo "$D/demo"; rm -f "$D"/demo/*.log; }
fi
mkdir -p /tmp/verif-mut; cp /verif/known_findings.json /tmp/verif-mut/
for c in "$@"; do
  tier=quick; case "$c" in *:thorough) tier=thorough; c=${c%%:*};; esac
  out=$(cd /verif && VERIF_REPO="$W" VERIF_ROOT=/tmp/verif-mut VERIF_BIN=/tmp/verif-mut/bin ./check "$c" "$tier" 2>&1); rc=$?
  echo "== seed $id vs check $c ($tier): exit=$rc"
  echo "$out" | grep -E "^(VIOLATION|ERROR|INCONCLUSIVE|VERDICT|KNOWN|  signature)" | sort | uniq -c | head -6
done
